(* C16  Invalid or oversized requests are refused before they cost anything.
   Property theorems only; proofs in theories/Limits_proofs.v.
   serve_tile ly cached q = (answer, effects) of one request q to a tile service (TMS, /tiles, KML, WMTS KVP / REST,
   GetTile and GetFeatureInfo) for layer ly when the cache holds the tiles `cached`;
   serve_map mp se ly cached q = the same for a WMS GetMap (plain or tiled=true) with max_output_pixels mp and the
   extent se configured for the request SRS (services.wms.bbox_srs; None: no extent).
   offered_format ly = the one tile format of the layer (png for a layer on a `format: mixed` cache).
   effects = cache loads / probes / stores and upstream GetMap / GetFeatureInfo requests. *)
From Coq Require Import ZArith List Bool.
Import ListNotations.
From MP Require Import Grid Grid_proofs Limits Gen_wmts_parse Limits_proofs Gen_tile_limit Limits_gen_proofs.
Local Open Scope Z_scope.

(* A refusal never costs anything: whenever a tile service answers with an error - whatever the reason - no cache
   operation and no upstream request has happened.  Every layer, cache state, request. *)
Theorem refused_tile_request_no_effects :
  forall ly cached q e, fst (serve_tile ly cached q) = Err e -> snd (serve_tile ly cached q) = [].
Proof. exact serve_tile_refused_free. Qed.

(* The same for map requests (pixel limit, tile limit, WMS-C restrictions, invalid bbox). *)
Theorem refused_map_request_no_effects :
  forall mp se ly cached q e, fst (serve_map mp se ly cached q) = Err e -> snd (serve_map mp se ly cached q) = [].
Proof. exact serve_map_refused_free. Qed.

(* A tile request whose level, column or row lies outside the advertised matrix - negative, just outside, of any
   magnitude - or is not a number at all (rx/ry/rz = None, the hypothesis is then vacuous) is answered with an error
   and has no effects.  All services incl. GetFeatureInfo, all layers, all cache states. *)
Theorem invalid_address_no_effects :
  forall ly cached q,
    (forall x y z, rx q = Some x -> ry q = Some y -> rz q = Some z -> ~ in_matrix ly (svc_profiles (rsvc q)) x y z) ->
    exists e, serve_tile ly cached q = (Err e, []).
Proof. exact serve_tile_invalid_address. Qed.

(* The parsers the code applies to the address components (extracted from request/wmts.py and request/tile.py by the
   translator on every run) are the ones the model assumes: only decimal integers can become a level, column or row. *)
Theorem address_parsers_as_modelled :
  kvp_level_parser = PyInt /\ kvp_row_parser = PyInt /\ kvp_col_parser = PyInt /\
  rest_level_parser = Digits /\ rest_row_parser = SignedDigits /\ rest_col_parser = SignedDigits /\
  tms_level_parser = SignedDigits /\ tms_row_parser = SignedDigits /\ tms_col_parser = SignedDigits.
Proof. exact address_parsers. Qed.

(* GetTile-type requests (everything but GetFeatureInfo) with a format that is not the offered one are refused
   without effects. *)
Theorem invalid_format_no_effects :
  forall ly cached q f,
    is_fi (rsvc q) = false -> rfmt q = Some f -> f <> offered_format ly -> exists e, serve_tile ly cached q = (Err e, []).
Proof. exact serve_tile_invalid_format. Qed.

(* In particular a layer on a `format: mixed` cache offers png only: jpeg, gif, "mixed", anything else is refused
   without effects although the cache stores png and jpeg tiles. *)
Theorem invalid_format_mixed_layer_no_effects :
  forall ly cached q f,
    lmixed ly = true -> is_fi (rsvc q) = false -> rfmt q = Some f -> f <> fmt_png ->
    exists e, serve_tile ly cached q = (Err e, []).
Proof. exact serve_tile_invalid_format_mixed. Qed.

(* A GetFeatureInfo request (KVP or REST) whose InfoFormat is not one the service offers - a service without
   featureinfo_formats offers none - is refused without effects. *)
Theorem unknown_infoformat_no_effects :
  forall ly cached q,
    is_fi (rsvc q) = true -> rinfo_ok q = false -> exists e, serve_tile ly cached q = (Err e, []).
Proof. exact serve_tile_unknown_infoformat. Qed.

(* Every tile request - GetTile and GetFeatureInfo - with a dimension value that is neither offered nor "default" /
   empty (dims_of: WMTS passes the request dimensions, TMS / KML never carry any) is refused without effects. *)
Theorem invalid_dimension_no_effects :
  forall ly cached q,
    dimensions_ok ly (dims_of q) = false -> exists e, serve_tile ly cached q = (Err e, []).
Proof. exact serve_tile_invalid_dimension. Qed.

(* The statement "format not offered => refused" is FALSE for WMTS GetFeatureInfo: its FORMAT parameter is not
   compared with the layer format (behaviour pinned by the test-suite of mapproxy, documented, not a finding);
   such a request is answered and asks the upstream server. *)
Theorem invalid_format_featureinfo_refuted :
  exists ly cached q f, is_fi (rsvc q) = true /\ rfmt q = Some f /\ f <> offered_format ly /\
    fst (serve_tile ly cached q) = Ok /\ snd (serve_tile ly cached q) <> [].
Proof. exact featureinfo_format_unchecked_witness. Qed.

(* A map request for more pixels than max_output_pixels is refused without effects - the limit applies to the
   requested size, whatever part of the request lies inside the SRS extent or the layer extent.  (The model has no
   EXCEPTIONS input: check_map_request sets prevent_image_exception, so the refusal is the service exception document
   also for EXCEPTIONS=blank / inimage - an image of the refused size would be the cost the limit exists to prevent;
   the harness sends over-limit requests with these values and requires the error answer.) *)
Theorem pixel_limit_no_effects :
  forall se ly cached q m, 0 < m < mw q * mh q -> serve_map (Some m) se ly cached q = (Err TooLarge, []).
Proof. exact serve_map_pixel_limit. Qed.

(* The same for a WMS layer that is backed directly by a source (no cache): the pixel limit holds whether or not the
   request carries TILED=true - such a layer ignores the flag, nothing else bounds the size of its upstream request. *)
Theorem pixel_limit_direct_layer_no_effects :
  forall se q m, 0 < m < mw q * mh q -> serve_direct (Some m) se q = (Err TooLarge, []).
Proof. exact serve_direct_pixel_limit. Qed.

(* A map request whose tile grid (of the part inside the SRS extent: srs_limited, and inside the layer extent:
   effective_query) has max_tile_limit tiles or more is refused without effects (num_tiles >= max_tile_limit). *)
Theorem tile_limit_no_effects :
  forall mp se ly cached q q1 q' n m,
    srs_limited se q = Some q1 -> effective_query ly q1 = Some q' -> tile_count ly q' = Some n ->
    lmax_tiles ly = Some m -> 0 < m <= n ->
    exists e, serve_map mp se ly cached q = (Err e, []).
Proof. exact serve_map_tile_limit. Qed.

(* WMS-C (GetMap with tiled=true: the tile is addressed by its BBOX).  A request whose BBOX is not the rectangle of the
   affected tile of the tile set (tile_source = src_bbox of get_affected_tiles) - some border differs by 1/10 of a
   request pixel or more, tiled_aligned = false - is refused without effects. *)
Theorem tiled_request_off_tile_no_effects :
  forall mp se ly cached q q1 src,
    srs_limited se q = Some q1 -> mtiled q1 = true -> tile_source ly q1 = Some src -> tiled_aligned q1 src = false ->
    exists e, serve_map mp se ly cached q = (Err e, []).
Proof. exact serve_map_tiled_unaligned. Qed.

(* Conversely: whenever a tiled request causes any cache operation or upstream request, every border of its BBOX is
   closer than 1/10 of a request pixel to the border of that tile (the x pixel for the first two values, the y pixel
   for the last two - as bbox_equals applies its two deltas). *)
Theorem tiled_request_with_effects_addresses_the_tile :
  forall mp se ly cached q q1 s0 s1 s2 s3,
    srs_limited se q = Some q1 -> mtiled q1 = true -> tile_source ly q1 = Some (s0, s1, s2, s3) ->
    snd (serve_map mp se ly cached q) <> [] ->
    let '(b0, b1, b2, b3) := mb q1 in
    Z.abs (b0 - s0) * (mw q1 * 10) < Z.abs (b2 - b0) /\ Z.abs (b1 - s1) * (mw q1 * 10) < Z.abs (b2 - b0) /\
    Z.abs (b2 - s2) * (mh q1 * 10) < Z.abs (b3 - b1) /\ Z.abs (b3 - s3) * (mh q1 * 10) < Z.abs (b3 - b1).
Proof. exact serve_map_tiled_effects_addressed. Qed.

(* The boundary is exact on every grid and level: with an offered format and acceptable dimension values, for every
   GetTile service, the first and last column / row of the matrix are served and the addresses one step outside
   (-1, nx, ny) are refused without effects. *)
Theorem boundary_exact :
  forall ly cached s o d io i j z x y,
    is_fi s = false -> (is_wmts s = true -> wmts_layer_ok ly = true) -> 0 <= z ->
    dimensions_ok ly (if is_wmts s then d else []) = true ->
    valid_level (lg ly) (internal_level ly (svc_profiles s) z) = true ->
    let nx := fst (grid_size (lg ly) (internal_level ly (svc_profiles s) z)) in
    let ny := snd (grid_size (lg ly) (internal_level ly (svc_profiles s) z)) in
    let ask := fun x y => serve_tile ly cached (mkReq s (Some x) (Some y) (Some z) (Some (offered_format ly)) o d true true io i j) in
    0 <= x < nx -> 0 <= y < ny ->
    fst (ask x (ny - 1)) = Ok /\ fst (ask (nx - 1) y) = Ok /\ fst (ask x 0) = Ok /\ fst (ask 0 y) = Ok /\
    (exists e, ask x ny = (Err e, [])) /\ (exists e, ask nx y = (Err e, [])) /\
    (exists e, ask x (-1) = (Err e, [])) /\ (exists e, ask (-1) y = (Err e, [])).
Proof. exact boundary. Qed.

(* No request can make MapProxy load, probe, fetch or store a tile address outside the grid: every coordinate in
   every effect of every tile request satisfies limit_tile; every upstream GetMap is the request for the meta tile
   of a tile of the grid, every upstream GetFeatureInfo is for the rectangle of a tile of the grid. *)
Theorem effects_inside_grid :
  forall ly cached q e, layer_wf ly -> In e (snd (serve_tile ly cached q)) -> effect_inside ly e.
Proof. exact serve_tile_inside. Qed.

Theorem effects_inside_grid_map :
  forall mp se ly cached q e,
    layer_wf ly -> ress (lg ly) <> [] -> In e (snd (serve_map mp se ly cached q)) -> effect_inside ly e.
Proof. exact serve_map_inside. Qed.

(* With a meta_buffer the bbox of every upstream request (up_request, see effect_inside) lies inside the grid bbox. *)
Theorem buffered_request_inside_grid_bbox :
  forall ly l ub, 0 < lbuf ly ->
    let '(x0, y0, x1, y1) := buffered_bbox ly l ub in
    gx0 (lg ly) <= x0 /\ gy0 (lg ly) <= y0 /\ x1 <= gx1 (lg ly) /\ y1 <= gy1 (lg ly).
Proof. exact buffered_bbox_in_grid_bbox. Qed.

(* TileManager.load_tile_coords with meta tiles, meta_buffer and minimize_meta_requests (upstream_requests = number of
   upstream GetMap requests among the effects; missing_tiles = requested tiles of the grid that are not cached).
   A request whose tiles are all cached reads them and does nothing else: no upstream request, no write. *)
Theorem cached_request_costs_nothing :
  forall ly cached cs, missing_tiles cached cs = [] ->
    load_tile_coords ly cached cs = map ERead (somes cs) ++ map EProbe (somes cs).
Proof. exact load_all_cached. Qed.

(* Meta tiles only ever merge requests: never more upstream requests than missing tiles, whatever meta_size,
   meta_buffer and minimize_meta_requests are. *)
Theorem upstream_requests_at_most_missing_tiles :
  forall ly cached cs, (upstream_requests (load_tile_coords ly cached cs) <= length (missing_tiles cached cs))%nat.
Proof. exact load_upstream_at_most_missing. Qed.

(* minimize_meta_requests on a cache with a meta grid (meta_size > 1x1 or meta_buffer > 0): at most one upstream
   request per call, however many tiles are missing. *)
Theorem minimize_meta_requests_one_upstream_request :
  forall ly cached cs, has_meta_grid ly = true -> lminimize ly = true ->
    (upstream_requests (load_tile_coords ly cached cs) <= 1)%nat.
Proof. exact load_minimize_one_request. Qed.

(* Without minimize_meta_requests: exactly one upstream request per distinct meta tile that has a missing tile. *)
Theorem one_upstream_request_per_meta_tile :
  forall ly cached cs, lminimize ly = false ->
    upstream_requests (load_tile_coords ly cached cs) =
      length (dedup_coords (map (main_tile ly) (missing_tiles cached cs))).
Proof. exact load_one_request_per_meta_tile. Qed.

(* Tie to the source.  gen_over_tile_limit is regenerated on every run from the test in front of the "too many tiles"
   error of CacheMapLayer._image (translator/specs/tile_limit.py -> gen/Gen_tile_limit.v, fail closed: the number
   compared must be tile_grid[0] * tile_grid[1] of the very get_affected_tiles result whose coordinates are loaded, and
   none of these names may be assigned a second time).  The model's over_tile_limit IS that test. *)
Theorem tile_limit_test_is_generated_from_source : forall ly n,
  over_tile_limit ly n = gen_over_tile_limit (lmax_tiles ly) n.
Proof. exact over_tile_limit_as_generated. Qed.
