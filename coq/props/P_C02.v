(* C02  Tile addresses mean what the capabilities documents say they mean.
   Property theorems only; proofs live in theories/TileSvc_proofs.v.  Model: theories/TileSvc.v on top of the exact
   grid model Grid.v.  `served s srv a` is the internal coordinate handed to the tile manager for address `a`
   (srv = the `origin` option of the tms service), `client_rect s srv a` the rectangle a standards-following
   client computes for `a` from the service's own capabilities document, `tile_bbox_c g c` the ground rectangle
   of the internal tile c. *)
From Coq Require Import ZArith List Bool.
Import ListNotations.
From MP Require Import Grid Grid_proofs TileSvc TileSvc_proofs MetaGrid.
Local Open Scope Z_scope.

(* WMTS (KVP and RESTful): for every grid that _matrix_sets does not skip, every advertised TileMatrix and every
   (col, row) inside the advertised matrix dimensions the request is served, and the tile that is loaded covers
   exactly the rectangle the client derives from TopLeftCorner (axis order swap included), ScaleDenominator,
   TileWidth/Height - for both grid origins, aligned or not, with or without the sqrt2 level skip (finding W1
   repaired: WMTS requests address every level; non-vacuity with sqrt2: ex_wmts_sqrt2). *)
Theorem wmts_address_exact :
  forall s srv m col row r,
    0 < s_mpu_n s -> 0 < s_mpu_d s ->
    client_rect s srv (AWmts m col row) = Some r ->
    exists c, served s srv (AWmts m col row) = Some c /\ tile_bbox_c (sg s) c = r.
Proof. exact wmts_address_exact_l. Qed.

(* The pixel span a WMTS client derives from the advertised ScaleDenominator is exactly the level resolution. *)
Theorem wmts_scale_denominator_exact :
  forall s l, 0 < s_mpu_n s -> 0 < s_mpu_d s ->
    wmts_client_res (s_mpu_n s) (s_mpu_d s) (wmts_matrix s l) = res_at (sg s) l.
Proof. exact wmts_client_res_exact. Qed.

(* TMS: every advertised TileSet (order, units-per-pixel) carries the resolution of the internal level that a
   request for that order is mapped to - with the hidden level 0 of the global profiles and the sqrt2 level skip. *)
Theorem tile_sets_internal_level_consistent :
  forall s order upp,
    In (order, upp) (tile_sets s) ->
    valid_level (sg s) (public_level s true order) = true /\ res_at (sg s) (public_level s true order) = upp.
Proof. exact tile_sets_internal_level_consistent_l. Qed.

(* TMS: if the layer extent is the grid bbox and the grid origin is ll - or, for ul grids, the bottom of the tiled
   area of that level is the bottom of the bbox - the tile served for z/x/y covers exactly the rectangle computed
   from Origin, units-per-pixel of order z and the tile size. *)
Theorem tms_address_exact :
  forall s srv z x y r c,
    s_extent s = grid_bbox (sg s) ->
    (ul (sg s) = false \/ misalign (sg s) (public_level s true z) = 0) ->
    tms_client_rect (tms_tilemap s) z x y = Some r ->
    served s srv (ATms z x y) = Some c ->
    tile_bbox_c (sg s) c = r.
Proof. exact tms_address_exact_l. Qed.

(* The hypothesis excludes exactly the defect class F8: the served tile covers the client's rectangle if and only if
   the advertised Origin is the south-west corner of tile (0, 0) of that level; in general the two rectangles
   differ by the offset between them. *)
Theorem tms_address_exact_iff :
  forall s srv z x y r c,
    tms_client_rect (tms_tilemap s) z x y = Some r ->
    served s srv (ATms z x y) = Some c ->
    (tile_bbox_c (sg s) c = r <-> tms_origin_ok s (public_level s true z)).
Proof. exact tms_address_exact_iff_l. Qed.

(* F8, first class: 'ul' grid whose height is not a multiple of the tile span (bbox [0,0,1000,700], res 4, 100 px). *)
Theorem tms_address_refuted :
  exists s srv z x y r c,
    wf (sg s) /\ s_extent s = grid_bbox (sg s) /\
    tms_client_rect (tms_tilemap s) z x y = Some r /\ served s srv (ATms z x y) = Some c /\
    tile_bbox_c (sg s) c <> r.
Proof. exact tms_address_refuted_l. Qed.

(* F8, second class: the layer extent differs from the grid bbox (origin ll). *)
Theorem tms_address_refuted_extent :
  exists s srv z x y r c,
    wf (sg s) /\ ul (sg s) = false /\
    tms_client_rect (tms_tilemap s) z x y = Some r /\ served s srv (ATms z x y) = Some c /\
    tile_bbox_c (sg s) c <> r.
Proof. exact tms_address_refuted_extent_l. Qed.

(* TMS: an address of an advertised order inside the grid of its level is served. *)
Theorem tms_advertised_served :
  forall s srv z x y u,
    lookup_order z (tile_sets s) = Some u ->
    0 <= x < fst (grid_size (sg s) (public_level s true z)) ->
    0 <= y < snd (grid_size (sg s) (public_level s true z)) ->
    exists c, served s srv (ATms z x y) = Some c.
Proof. exact tms_advertised_served_l. Qed.

(* /tiles with ?origin= or the origin option of the service: the served tile covers the rectangle counted from
   the corner of the grid bbox named by the effective origin, whenever that origin is the grid's own or the level
   is aligned. *)
Theorem origin_override_exact :
  forall s srv q z x y r c,
    let l := public_level s false z in
    (effective_origin (sg s) (request_origin srv q) = ul (sg s) \/ misalign (sg s) l = 0) ->
    client_rect s srv (ATiles q z x y) = Some r ->
    served s srv (ATiles q z x y) = Some c ->
    tile_bbox_c (sg s) c = r.
Proof. exact tiles_address_exact_l. Qed.

(* the request parameter wins over the service option *)
Theorem origin_param_wins :
  forall s srv srv' q z x y,
    q <> ONone -> served s srv (ATiles q z x y) = served s srv' (ATiles q z x y).
Proof. exact origin_param_wins_l. Qed.

(* KML image addresses (origin forced to 'sw', no profile level skip). *)
Theorem kml_address_exact :
  forall s srv z x y r c,
    (ul (sg s) = false \/ misalign (sg s) (public_level s false z) = 0) ->
    client_rect s srv (AKml z x y) = Some r ->
    served s srv (AKml z x y) = Some c ->
    tile_bbox_c (sg s) c = r.
Proof. exact kml_address_exact_l. Qed.

(* KML super-overlay: the address written into the link of a sub-tile is answered with that sub-tile; on sqrt2
   grids for the even internal levels (the only ones KML links to).  Finding K1 repaired (ex_kml_href_sqrt2);
   the document of the last level has no links (K2 repaired, ex_kml_last_level). *)
Theorem kml_href_roundtrip :
  forall s srv x y l h,
    (skip_odd s = false \/ l mod 2 = 0) ->
    limit_tile (sg s) x y l = Some (x, y, l) ->
    kml_href_coord s (x, y, l) = Some h ->
    let '(hx, hy, hz) := h in served s srv (AKml hz hx hy) = Some (x, y, l).
Proof. exact kml_href_roundtrip_l. Qed.

(* Same ground tile, same image: two addresses - any two services (TMS, tiles, KML, WMTS), any origin conventions -
   for which the clients compute the same rectangle are answered from the same internal tile coordinate.
   addr_ok is the per-address hypothesis of the exactness theorems above. *)
Theorem same_ground_tile_same_internal :
  forall s srv a1 a2 r c1 c2,
    wf (sg s) -> decreasing_res (sg s) ->
    addr_ok s srv a1 -> addr_ok s srv a2 ->
    client_rect s srv a1 = Some r -> client_rect s srv a2 = Some r ->
    served s srv a1 = Some c1 -> served s srv a2 = Some c2 ->
    c1 = c2.
Proof. exact same_ground_tile_same_internal_l. Qed.

(* WMS-C: a GetMap with tiled=true is either refused / blank or answered with a stored tile every edge of which
   lies within 1/10 pixel of the requested rectangle (so never with a neighbouring tile); the size is the tile size.
   (The positive direction is wmsc_advertised_served below.) *)
Theorem wmsc_exact_or_refused :
  forall g b sx sy c,
    wmsc_get_map g b sx sy = WLoaded c ->
    sx = tw g /\ sy = th g /\ bbox_equals_tenth b (tile_bbox_c g c) sx sy = true.
Proof. exact wmsc_exact_or_refused_l. Qed.

(* WMS-C: requesting exactly the rectangle of a stored tile (tile size of the grid, lattice of at least 10 quanta
   per pixel so that the 1/10 pixel inset is not zero) returns that tile: level choice (closest_level with the
   stretch factor), shrink limit, the inset block and the alignment guard all let it through. *)
Theorem wmsc_stored_tile_served :
  forall g x y l,
    wf g -> decreasing_res g -> 0 < sf_d g <= sf_n g -> 0 < shr_d g <= shr_n g ->
    limit_tile g x y l = Some (x, y, l) -> 10 <= res_at g l ->
    wmsc_get_map g (tile_bbox g x y l) (tw g) (th g) = WLoaded (x, y, l).
Proof. exact wmsc_tile_rect_served. Qed.

(* WMS-C: the rectangle a client derives from the advertised TileSet (lower-left corner of the BoundingBox,
   resolution of level l, tile size) for tile (i, j) is served with the tile TMS serves for (i, j) - under the
   hypotheses of tms_address_exact; without them such rectangles are refused (finding F8, WMS-C face:
   ex_wmsc_advertised in TileSvc_proofs.v). *)
Theorem wmsc_advertised_served :
  forall s i j l,
    wf (sg s) -> decreasing_res (sg s) -> 0 < sf_d (sg s) <= sf_n (sg s) -> 0 < shr_d (sg s) <= shr_n (sg s) ->
    s_extent s = grid_bbox (sg s) ->
    (ul (sg s) = false \/ misalign (sg s) l = 0) ->
    limit_tile (sg s) i j l = Some (i, j, l) -> 10 <= res_at (sg s) l ->
    wmsc_get_map (sg s) (wmsc_client_rect s (res_at (sg s) l) i j) (tw (sg s)) (th (sg s)) =
    WLoaded (flip_for (sg s) OSW (i, j, l)).
Proof. exact wmsc_advertised_served_l. Qed.

(* KML super-overlay, the whole document: every GroundOverlay of the document of any address (z, x, y) - for every
   grid, both origins, global profiles, sqrt2 level skip - carries a link, that link is served, and the tile that is
   loaded for it covers exactly the LatLonBox written next to the link (in the grid SRS; the WGS84 transformation of
   the box is outside the model). *)
Theorem kml_document_links_exact :
  forall s srv x y z b subs oh r,
    kml_document s x y z = KmlDoc b subs -> In (oh, r) subs ->
    exists hx hy hz, oh = Some (hx, hy, hz) /\
      exists c, served s srv (AKml hz hx hy) = Some c /\ tile_bbox_c (sg s) c = r.
Proof. exact kml_document_links_exact_l. Qed.

(* Content of the returned tile: the image stored for the tile of an address (any service), cut by TileSplitter out
   of its meta tile (MetaGrid.v: buffered meta bbox, tile pattern), shows at every pixel (j, k) the upstream picture
   sampled over the rectangle the CLIENT computes for the address from the capabilities - a picture that depends on
   ground position only looks the same as if exactly that rectangle had been requested.
   served_content_partial: proved for meta tiles whose buffer is not cut at the grid border (no_buffer_cut, the
   hypothesis of C04's meta_equals_single); the cut / overhanging case (negative crop offsets) is validated by the
   stored_pixel correspondence and the pixel oracle only. *)
Theorem served_content_partial :
  forall s srv a r c m q j k,
    mg_grid m = sg s -> MetaLemmas.mwf m -> 0 < q ->
    addr_ok s srv a -> client_rect s srv a = Some r -> served s srv a = Some c ->
    (let '(cx, cy, cz) := c in MetaLemmas.no_buffer_cut m cx cy cz) ->
    0 <= j < tw (sg s) -> 0 <= k < th (sg s) ->
    model_pixel m q HowMeta c j k = Some (stored_pixel (sg s) q r (tw (sg s), th (sg s)) (0, 0) j k).
Proof. exact served_content_exact_l. Qed.

(* WMS-C: the advertised-served statement under the exact Origin condition of tms_address_exact_iff only (the lower-left
   corner of the TileSet BoundingBox is the south-west corner of tile (0,0) of that level) - the layer extent may differ
   from the grid bbox otherwise. *)
Theorem wmsc_advertised_served_origin :
  forall s i j l,
    wf (sg s) -> decreasing_res (sg s) -> 0 < sf_d (sg s) <= sf_n (sg s) -> 0 < shr_d (sg s) <= shr_n (sg s) ->
    tms_origin_ok s l ->
    limit_tile (sg s) i j l = Some (i, j, l) -> 10 <= res_at (sg s) l ->
    wmsc_get_map (sg s) (wmsc_client_rect s (res_at (sg s) l) i j) (tw (sg s)) (th (sg s)) =
    WLoaded (flip_for (sg s) OSW (i, j, l)).
Proof. exact wmsc_advertised_served_origin_l. Qed.

(* TileServiceGrid.internal_level (demo pages): names the level TMS requests of that order are served from ... *)
Theorem internal_level_consistent :
  forall s z, skip_first s && skip_odd s = false -> internal_level s z = public_level s true z.
Proof. exact internal_level_consistent_l. Qed.

(* ... except on global-profile sqrt2 grids, where it is two grid levels further down (order 0: level 4 instead of 2;
   TileServiceGrid.bbox then raises IndexError on grids with at most 4 levels: ex_internal_level). *)
Theorem internal_level_sqrt2_profile_offset :
  forall s z, skip_first s = true -> skip_odd s = true -> internal_level s z = public_level s true z + 2.
Proof. exact internal_level_offset_l. Qed.

(* Request isolation (schedules): for every tile service table, every family of TMS / tiles / KML requests and every
   interleaving of their parse and handle events (a multi-threaded WSGI server), a request that is handled after it was
   parsed hands the tile manager exactly the coordinate it would get alone (`served` of its own layer and address) -
   whatever other requests were parsed or handled in between.  The model keeps the class-level `dimensions` dict of
   TileRequest and the per-instance dict that _init_request assigns; the invariant is that the class-level dict is
   never written. *)
Theorem request_isolation :
  forall t srv reqs pre post i,
    In (RParse i) pre -> ~ In (RHandle i) post ->
    answer_of (run_schedule t srv reqs (pre ++ RHandle i :: post)) i =
    Some (handle_with t srv (reqs i) (rq_spec (reqs i))).
Proof. exact request_isolation_l. Qed.

(* WMTS with the metres per unit of service/wmts.py (111319.4907932736 for every geographic SRS whatever its ellipsoid,
   1 otherwise - the constants a WMTS client uses): wmts_address_exact without any hypothesis. *)
Theorem wmts_address_exact_std :
  forall s srv latlong m col row r,
    (s_mpu_n s, s_mpu_d s) = meter_per_unit latlong ->
    client_rect s srv (AWmts m col row) = Some r ->
    exists c, served s srv (AWmts m col row) = Some c /\ tile_bbox_c (sg s) c = r.
Proof. exact wmts_address_exact_std_l. Qed.

(* A cache with several grids (config/loader.py caches()): every tile layer gets the extent computed for ITS grid; without
   cache coverage and source extents that is the bbox of its own grid - the extent hypothesis of tms_address_exact -
   whatever the position of the grid in the list. *)
Theorem multi_grid_cache_extents :
  forall grids g e, In (g, e) (cache_tile_layers None None grids) -> e = grid_bbox g.
Proof. exact cache_tile_layers_own_bbox_l. Qed.

(* KML LatLonBox (kml.py _tile_bbox_to_wgs, T = the PROJ transformation to WGS84, any function): the box written next to a
   link is the transformed rectangle of the tile for every grid that is not in SRS(900913) and, on mercator grids, for every
   tile that does not end at the border of the mercator WORLD - in particular for all tiles of regional grids, also those
   in the first and last row of the grid.  (At the world border the box is extended to the pole: existing behaviour.) *)
Theorem kml_latlonbox_is_transformed_rectangle :
  forall T merc world tenth pole src,
    (merc = false \/ let '(_, s1, _, s3) := src in tenth <= Z.abs (s1 + world) /\ tenth <= Z.abs (s3 - world)) ->
    kml_bbox_to_wgs T merc world tenth pole src = T src.
Proof. exact kml_bbox_to_wgs_plain_l. Qed.


(* WMTS, converse of wmts_address_exact: a (TileMatrix, TileCol, TileRow) that GetTile serves lies inside the
   MatrixWidth x MatrixHeight of an advertised TileMatrix - the advertised dimensions are exactly grid_sizes, the numbers
   limit_tile refuses with; together with wmts_address_exact: advertised addresses = served addresses (seeded change
   C02-u1 recomputes the advertised dimensions from the bbox and breaks the other inclusion). *)
Theorem wmts_served_is_advertised :
  forall s srv m col row c,
    served s srv (AWmts m col row) = Some c ->
    exists r, client_rect s srv (AWmts m col row) = Some r.
Proof. exact wmts_served_is_advertised_l. Qed.
