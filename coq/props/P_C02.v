(* C02  Tile addresses mean what the capabilities documents say they mean.
   Property theorems only; proofs live in theories/TileSvc_proofs.v. *)
From Coq Require Import ZArith List Bool.
Import ListNotations.
From MP Require Import Grid Grid_proofs TileSvc TileSvc_proofs.
Local Open Scope Z_scope.

(* The pixel span a WMTS client derives from the advertised ScaleDenominator is exactly the level resolution. *)
Theorem wmts_scale_denominator_exact :
  forall s l, 0 < s_mpu_n s -> 0 < s_mpu_d s ->
    wmts_client_res (s_mpu_n s) (s_mpu_d s) (wmts_matrix s l) = res_at (sg s) l.
Proof. exact wmts_client_res_exact. Qed.
